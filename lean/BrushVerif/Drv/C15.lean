import BrushVerif.Model.Cache
import BrushVerif.Model.Accumulate
/-! Driver for C15.
* `acc <lines> <table>` — `<lines>` = esc of the esc'd lines joined by newline; `<table>` = `i:j:c:c2;…` giving the
  parse outcome of the concatenation of lines [i,j) and (c2 ≠ `-`) of the same text without its final newline.
  Response `CH=<esc of the esc'd chunks joined by newline> OFF=<line offset of each chunk>`.
* `memo <fn> <file> <cap> <M> <F> <H>` — the cache definition `<fn>`/`<file>` of `Gen.Caches`; `M` = `name:slot,…`
  (which slot of a call `n.n.n.n` each parameter takes its value from), `F` = `call=v;…` (value of a fresh call),
  `H` = `call,call,…`. Response: the values returned along the history, `v,v,…`. -/
namespace BrushVerif.Drv.C15
open BrushVerif.Wire BrushVerif.Accumulate BrushVerif.Gen.IncompleteErrors

def unescList (s : Str) : List Str :=
  let u := unesc s
  if u.isEmpty then [] else (splitOnChar '\n' u).map unesc

def escList (l : List Str) : Str := esc (joinWith ['\n'] (l.map esc))

def parseOutcome (s : Str) : Option Outcome :=
  match s with
  | ['o', 'k'] => some .ok
  | ['n', 'e', 'a', 'r'] => some .near
  | ['e', 'n', 'd'] => some .atEnd
  | 't' :: 'o' :: 'k' :: '=' :: nm => (TokErr.all.find? (fun e => e.name.toList = nm)).map .tok
  | _ => none

def range (lines : List Str) (i j : Nat) : Str := ((lines.drop i).take (j - i)).flatten

def tableEntries (lines : List Str) (row : Str) : List (Str × Outcome) :=
  match splitOnChar ':' row with
  | [i, j, c, c2] =>
    match parseNat? i, parseNat? j, parseOutcome c with
    | some i, some j, some o =>
      let s := range lines i j
      let e1 := [(s, o)]
      match parseOutcome c2, stripNl s with
      | some o2, some t => (t, o2) :: e1
      | _, _ => e1
    | _, _, _ => []
  | _ => []

def lookupParse (tbl : List (Str × Outcome)) (s : Str) : Outcome :=
  match tbl.find? (fun e => e.1 = s) with
  | some e => e.2
  | none => .near

def handleAcc (ls tb : Str) : Str :=
  let lines := unescList ls
  let tbl := if tb = ['-'] then [] else (splitOnChar ';' tb).flatMap (tableEntries lines)
  let ch := chunks (needsMoreInput (lookupParse tbl)) lines
  -- OFF: the line offset in force while each chunk runs (`$LINENO` of its first line is offset + 1)
  "CH=".toList ++ escList ch ++ " OFF=".toList ++ joinWith [','] ((offsets 0 ch).map natToStr)

/-! memo -/
open BrushVerif.Cache

def parseCall (s : Str) : List Nat := (splitOnChar '.' s).map (fun t => (parseNat? t).getD 0)

def parseSlots (s : Str) : List (String × Nat) :=
  (splitOnChar ',' s).filterMap (fun e =>
    match splitOnChar ':' e with
    | [n, k] => (parseNat? k).map (fun k => (String.ofList n, k))
    | _ => none)

def assignOf (slots : List (String × Nat)) (call : List Nat) : Assign := fun name =>
  match slots.find? (fun e => e.1 = name) with
  | some e => call.getD e.2 0
  | none => 0

def parseFresh (s : Str) : List (List Nat × Nat) :=
  (splitOnChar ';' s).filterMap (fun e =>
    match splitOnChar '=' e with
    | [c, v] => (parseNat? v).map (fun v => (parseCall c, v))
    | _ => none)

def handleMemo (fn file cap m f h : Str) : Str :=
  match BrushVerif.Gen.Caches.caches.find? (fun c => c.fn.toList = fn ∧ c.file.toList = file), parseNat? cap with
  | some c, some cap =>
    let slots := parseSlots m
    let fresh := (parseFresh f).map (fun e => (c.params.map (assignOf slots e.1), e.2))
    let fv : Assign → Nat := fun a =>
      match fresh.find? (fun e => e.1 = c.params.map a) with
      | some e => e.2
      | none => 999999
    let hist := (splitOnChar ',' h).map (fun s => assignOf slots (parseCall s))
    -- value ids ≥ 1000000 stand for `Err(_)` results, which are not stored
    let out := (runMemo fv (keyOf c.key) (fun v => decide (v < 1000000)) cap [] hist).1
    joinWith [','] (out.map natToStr)
  | _, _ => "no-such-cache".toList

def handle (toks : List Str) : Str :=
  match toks with
  | [['a', 'c', 'c'], ls, tb] => handleAcc ls tb
  | [['m', 'e', 'm', 'o'], fn, file, cap, m, f, h] => handleMemo fn file cap m f h
  | _ => "bad-request".toList

end BrushVerif.Drv.C15
