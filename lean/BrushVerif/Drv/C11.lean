import BrushVerif.Model.Wire
/-! Driver for C11 (stub until the property's model exists). -/
namespace BrushVerif.Drv.C11
open BrushVerif.Wire

def handle (_toks : List Str) : Str := "unimplemented".toList

end BrushVerif.Drv.C11
