import BrushVerif.Model.Pipe
/-!
Driver for C11.
* `C11 pipe <cap> <len> <width> <seed> <stage>…` with `<stage> = <inline 0|1>:<map 0|1>:<limit|->:<emit 0|1>:<sigpipe 0|1>`
  → `<done|stuck> <out-length> <out-hash> <code,code,…>` for the leftmost-first/large-chunk schedule,
  then ` | ` and the same for the rightmost-first/one-byte schedule (only run when some stage has a limit).
* `C11 wait <pipefail 0|1> <bang 0|1> <code>…` → `<status> <c1,c2,…>`
* `C11 strip <esc text>` → `<esc stripped>`
* `C11 cstat <prior> <a|c<st>> <code>…` → `$?` after an assignment-only command / a command with substitutions
* `C11 rops <esc text> <op>…` → values of the consumers `l`/`d:<c>`/`n<k>`/`m` and what is left
* `C11 read <k> <esc text>` → `<esc line1> … <esc linek> <esc rest>`
-/
namespace BrushVerif.Drv.C11
open BrushVerif.Wire BrushVerif.Pipe

/-- bytes of the character used in multi-byte mode `m` (é, €, 😀) -/
def mbByte (m k : Nat) : Nat :=
  if m = 2 then (if k = 0 then 195 else 169)
  else if m = 3 then (if k = 0 then 226 else if k = 1 then 130 else 172)
  else (if k = 0 then 240 else if k = 1 then 159 else if k = 2 then 152 else 128)

/-- the payload both sides generate: lines of `w` bytes, last byte newline.  `seed < 100`: letters
a..y.  `seed = 100*m + s` (m = 2, 3, 4): each line is `q % m` letters `a` (q = line number, so that
the characters sit at every phase) followed by m-byte UTF-8 characters, padded with `x` where a whole
character no longer fits before the newline. -/
def payloadByte (len w seed i : Nat) : Nat :=
  if (i + 1) % w = 0 ∨ i + 1 = len then 10
  else
    let m := seed / 100
    if m = 0 then 97 + ((i * 7 + (i / w) * 3 + seed) % 25)
    else
      let q := i / w
      let j := i % w
      let content := min w (len - q * w) - 1
      let off := q % m
      if j < off then 97
      else if ((j - off) / m + 1) * m + off ≤ content then mbByte m ((j - off) % m)
      else 120

def payloadGo (len w seed : Nat) : Nat → List Nat → List Nat
  | 0, acc => acc
  | i + 1, acc => payloadGo len w seed i (payloadByte len w seed i :: acc)

def payload (len w seed : Nat) : List Nat := payloadGo len w seed len []

/-- `tr a-y b-z` -/
def trMap (b : Nat) : Nat := if 97 ≤ b ∧ b ≤ 121 then b + 1 else b

def parseStage (t : Str) : Option Spec :=
  match splitOnChar ':' t with
  | [i, m, l, e, g] =>
    let lim : Option (Option Nat) := if l = ['-'] then some none else (parseNat? l).map some
    match lim with
    | none => none
    | some lim =>
      some { inline := i = ['1'], f := if m = ['1'] then trMap else id, limit := lim,
             emit := e = ['1'], sigpipe := g = ['1'] }
  | _ => none

def hash (l : List Nat) : Nat := l.foldl (fun h b => (h * 31 + b) % 1000000007) 7

def showState (s : State) : Str :=
  (if isDone s then "done".toList else "stuck".toList) ++ [' '] ++ natToStr s.out.length ++ [' '] ++
    natToStr (hash s.out) ++ [' '] ++ joinWith [','] ((codes s).map natToStr)

def big : Nat := 1099511627776

def handlePipe (toks : List Str) : Str :=
  match toks with
  | cap :: len :: w :: seed :: stages =>
    match parseNat? cap, parseNat? len, parseNat? w, parseNat? seed, stages.mapM parseStage with
    | some cap, some len, some w, some seed, some specs =>
      let s0 := init specs (payload len w seed)
      let l := run cap big true big s0
      let r := if specs.any (fun sp => sp.limit.isSome) then run cap big false big s0 else l
      showState l ++ " | ".toList ++ showState r
    | _, _, _, _, _ => "bad-pipe".toList
  | _ => "bad-pipe".toList

def handle (toks : List Str) : Str :=
  match toks with
  | ['p','i','p','e'] :: rest => handlePipe rest
  | ['w','a','i','t'] :: pf :: bang :: cs =>
    match cs.mapM parseNat? with
    | some cs =>
      let r := waitAll (pf = ['1']) (bang = ['1']) cs
      natToStr r.1 ++ [' '] ++ (if r.2.isEmpty then ['-'] else joinWith [','] (r.2.map natToStr))
    | none => "bad-wait".toList
  | [['s','t','r','i','p'], t] => esc (dropTrailingNewlines (unesc t))
  | [['r','e','a','d'], k, t] =>
    match parseNat? k with
    | some k =>
      let r := readLines k (unesc t)
      joinWith [' '] (r.1.map esc ++ [esc r.2])
    | none => "bad-read".toList
  | ['r','o','p','s'] :: t :: ops =>
    -- `C11 rops <esc text> <op>…` with `<op>` = `l` | `d:<esc char>` | `n<k>` | `m` → `<esc value>… <esc rest>`
    let parseOp : Str → Option ReadOp := fun o =>
      match o with
      | ['l'] => some (.line '\n')
      | ['m'] => some .mapfile1
      | 'd' :: ':' :: r => (match unesc r with | [c] => some (.line c) | _ => none)
      | 'n' :: r => (parseNat? r).map .nchars
      | _ => none
    match ops.mapM parseOp with
    | some ops =>
      let r := runOps ops (unesc t)
      joinWith [' '] (r.1.map (fun p => esc p.value) ++ [esc r.2])
    | none => "bad-rops".toList
  | ['c','s','t','a','t'] :: prior :: kind :: cs =>
    -- `C11 cstat <prior $?> <a | c<status>> <substitution status>…` → `$?` afterwards
    match parseNat? prior, cs.mapM parseNat? with
    | some p, some cs =>
      let r : StatusReg := { status := p, changes := 0 }
      match kind with
      | ['a'] => natToStr (statusAfter r cs .assignOnly).status
      | 'c' :: st =>
        match parseNat? st with
        | some st => natToStr (statusAfter r cs (.command st)).status
        | none => "bad-cstat".toList
      | _ => "bad-cstat".toList
    | _, _ => "bad-cstat".toList
  | _ => "bad-request".toList

end BrushVerif.Drv.C11
