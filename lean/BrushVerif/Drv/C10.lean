import BrushVerif.Model.Fd
import BrushVerif.Model.HereDoc
import BrushVerif.Spec.FdFlat
/-!
Driver for C10.

* `C10 R <nc> <cmd>…` — a script of one command per line (prefix encoding, see `parseCmd`);
  response `M rc=0 out=… err=… rep=… files=… | S rc=0 out=… …` (brush model, flat bash reference),
  or `HAZARD` in place of a side whose file contents depend on the length of an error message.
* `C10 H <dash> <esc tag word> <esc text>` — here-document scanning of `text` (what follows the
  line holding `<<tag`): `ok <expand 0|1> <esc body> <esc rest>` or `unterminated`.
* `C10 E <esc body> <esc value of x>` — here-document expansion of a body (unquoted delimiter).
-/
namespace BrushVerif.Drv.C10
open BrushVerif.Wire BrushVerif.Fd

def splitComma (s : Str) : List Str := splitOnChar ',' s

def parseOptFd (s : Str) : Option (Option Fd) :=
  if s = ['-'] then some none else (parseNat? s).map some

def parseKind : Str → Option Kind
  | ['r'] => some .read | ['w'] => some .write | ['a'] => some .append
  | ['x'] => some .readWrite | ['c'] => some .clobber | _ => none

def parseRedir (t : Str) : Option Redir :=
  match t with
  | 'f' :: r =>
    match splitComma r with
    | [n, k, p] => do some (.file (← parseOptFd n) (← parseKind k) (← parseNat? p))
    | _ => none
  | 'd' :: r =>
    match splitComma r with
    | [n, io, src, dash] => do
      let src ← match src with
        | ['-'] => some DupSrc.none
        | 'n' :: m => (parseNat? m).map DupSrc.fd
        | 'p' :: m => (parseNat? m).map DupSrc.word
        | _ => none
      some (.dup (← parseOptFd n) (io = ['i']) src (dash = ['1']))
    | _ => none
  | 'e' :: r =>
    match splitComma r with
    | [p, a] => do some (.outErr (← parseNat? p) (a = ['1']))
    | _ => none
  | 'h' :: r =>
    match splitComma r with
    | [n, c] => do some (.here (← parseOptFd n) (unesc c))
    | _ => none
  | _ => none

def parseRedirs : Nat → List Str → Option (List Redir × List Str)
  | 0, ts => some ([], ts)
  | k + 1, t :: ts => do
    let r ← parseRedir t
    let (rs, rest) ← parseRedirs k ts
    some (r :: rs, rest)
  | _, [] => none

def counted (ts : List Str) : Option (List Redir × List Str) :=
  match ts with
  | k :: rest => do parseRedirs (← parseNat? k) rest
  | [] => none

mutual
partial def parseCmd (ts : List Str) : Option (Cmd × List Str) :=
  match ts with
  | ['P'] :: tag :: rest => do
    let (rs, rest) ← counted rest
    some (.probe (← parseNat? tag) rs, rest)
  | ['B'] :: tag :: rest => do
    let (rs, rest) ← counted rest
    some (.echo (← parseNat? tag) rs, rest)
  | ['X'] :: rest => do
    let (rs, rest) ← counted rest
    some (.exec rs, rest)
  | ['G'] :: rest => do
    let (rs, rest) ← counted rest
    let (b, rest) ← parseBody rest
    some (.group b rs, rest)
  | ['U'] :: rest => do
    let (rs, rest) ← counted rest
    let (b, rest) ← parseBody rest
    some (.sub b rs, rest)
  | ['C'] :: rest => do
    let (drs, rest) ← counted rest
    let (rs, rest) ← counted rest
    let (b, rest) ← parseBody rest
    some (.call b drs rs, rest)
  | _ => none
partial def parseBody (ts : List Str) : Option (Cmds × List Str) :=
  match ts with
  | m :: rest => do parseN (← parseNat? m) rest
  | [] => none
partial def parseN (n : Nat) (ts : List Str) : Option (Cmds × List Str) :=
  if n = 0 then some (.nil, ts) else do
    let (c, rest) ← parseCmd ts
    let (cs, rest) ← parseN (n - 1) rest
    some (.cons c cs, rest)
end

partial def parseScript (ts : List Str) : Option (List Cmd) :=
  if ts.isEmpty then some [] else do
    let (c, rest) ← parseCmd ts
    let cs ← parseScript rest
    some (c :: cs)

def fileOrder : List (Path × Str) :=
  [(0, "a".toList), (1, "b".toList), (2, "c".toList), (5, "d".toList), (3, "ex".toList), (4, "ex2".toList)]

def showFiles (s : Sys) : Str :=
  joinWith [','] (fileOrder.filterMap fun (p, nm) =>
    match s.fs p with
    | some (.reg d _) => some (nm ++ ['='] ++ esc d)
    | some .dir => some (nm ++ "=DIR0".toList)
    | _ => none)

def dataOf (s : Sys) (p : Path) : Str :=
  match s.fs p with
  | some (.reg d _) => d
  | _ => []

def showSys (s : Sys) : Str :=
  if s.hazard then "HAZARD".toList else
  "rc=0 out=".toList ++ esc (dataOf s 8) ++ " err=".toList ++ esc (dataOf s 9) ++
  " rep=".toList ++ esc (s.rep.flatMap (· ++ ['\n'])) ++ " files=".toList ++ showFiles s ++
  " notes=".toList ++ (if s.notes.isEmpty then ['-'] else joinWith [','] (s.notes.map natToStr))

def handleR (ts : List Str) : Str :=
  match ts with
  | nc :: rest =>
    match parseScript rest with
    | none => "bad-script".toList
    | some cs =>
      let nc := nc = ['1']
      let m := (runScript nc cs initP initSys).2
      let sp := (BrushVerif.FdFlat.runScript nc cs BrushVerif.FdFlat.initT initSys).2
      "M ".toList ++ showSys m ++ " | S ".toList ++ showSys sp
  | [] => "bad-request".toList

def handleH (ts : List Str) : Str :=
  match ts with
  | [dash, tag, text] =>
    match BrushVerif.HereDoc.scanDoc (dash = ['1']) (unesc tag) (unesc text) with
    | none => "unterminated".toList
    | some (body, rest) =>
      "ok ".toList ++ (if BrushVerif.HereDoc.requiresExpansion (unesc tag) then ['1'] else ['0']) ++ [' '] ++
        esc body ++ [' '] ++ esc rest
  | _ => "bad-request".toList

def handle (toks : List Str) : Str :=
  match toks with
  | ['R'] :: rest => handleR rest
  | ['H'] :: rest => handleH rest
  | [['E'], body, x] => esc (BrushVerif.HereDoc.expand (unesc x) (unesc body))
  | _ => "bad-request".toList

end BrushVerif.Drv.C10
