import BrushVerif.Model.Wire
import BrushVerif.Model.ArithParse
import BrushVerif.Gen.ArithLevels
/-! Driver for C07: `P <expr>` (parse → S-expression) and `E <expr> <name>=<value>…` (evaluate in an
environment of scalars and indexed arrays; prints value-or-error and the variables afterwards).  Same canonical output as
`harness/src/bin/c07.rs`. -/
namespace BrushVerif.Drv.C07
open BrushVerif.Wire BrushVerif.Arith

def varUniverse : List Str := ["a", "b", "c", "d", "x", "y", "z", "u", "v", "w", "A", "B"].map String.toList

def P (s : Str) : Option Expr := parse BrushVerif.Gen.arithLevels s

def errName : Err → String
  | .divZero => "div0" | .negExp => "negexp" | .parse => "parse"
  | .recursion => "recursion" | .array => "array" | .update => "update"

def showVal : Val → Str
  | .scalar s => esc s
  | .arr m => "[".toList ++ joinWith ",".toList (m.map (fun (k, v) => natToStr k ++ ":".toList ++ esc v)) ++ "]".toList

def dumpVars (env : Env) : Str :=
  let items := varUniverse.filterMap (fun n => (env.get n).map (fun v => n ++ "=".toList ++ showVal v))
  if items.isEmpty then "-".toList else joinWith " ".toList items

/-- split at every `c` -/
def splitOn (c : Char) : Str → List Str
  | [] => [[]]
  | x :: xs =>
    match splitOn c xs with
    | [] => [[]]
    | h :: t => if x = c then [] :: h :: t else (x :: h) :: t

/-- positions 0.. for the elements of `name=(v0 v1 …)` -/
def enumFrom : Nat → List Str → List (Nat × Str)
  | _, [] => []
  | i, v :: vs => (i, v) :: enumFrom (i + 1) vs

/-- `name=value` (scalar) or `@name=v0,v1,…` (indexed array with elements 0..) -/
def parseAssign (t : Str) : Option (Str × Val) :=
  match t with
  | '@' :: t' =>
    (match t'.span (· != '=') with
     | (n, '=' :: v) => some (n, .arr (if v.isEmpty then [] else enumFrom 0 ((splitOn ',' v).map unesc)))
     | _ => none)
  | _ =>
    match t.span (· != '=') with
    | (n, '=' :: v) => some (n, .scalar (unesc v))
    | _ => none

def handle (toks : List Str) : Str :=
  match toks with
  | cmd :: e :: rest =>
    let expr := unesc e
    if cmd = "P".toList then
      match P expr with
      | some x => "ok ".toList ++ sexpr x
      | none => "err".toList
    else if cmd = "E".toList then
      let env : Env := (rest.filterMap parseAssign).foldl (fun env (nv : Str × Val) => env.set nv.1 nv.2) []
      match P expr with
      | none => "e parse | ".toList ++ dumpVars env
      | some x =>
        match eval P 0 env x with
        | (env', .ok v) => "v ".toList ++ showInt v ++ " | ".toList ++ dumpVars env'
        | (env', .err er) => "e ".toList ++ (errName er).toList ++ " | ".toList ++ dumpVars env'
    else "bad-request".toList
  | _ => "bad-request".toList

end BrushVerif.Drv.C07
