import BrushVerif.Model.Env
/-! Driver for C09: `C09 <op> <op> …` (ops of `Model/Env.lean`, `D` = probe) → one dump per probe,
joined by ` | `.  A dump is `S=<ok of the last op> <scopes bottom→top> <visible view> <child env> <guard events so far>`. -/
namespace BrushVerif.Drv.C09
open BrushVerif.Wire BrushVerif.Env

def splitC (c : Char) (s : Str) : List Str := splitOnChar c s

def parseKind : Str → Option Kind
  | ['g'] => some .global
  | ['l'] => some .loc
  | ['c'] => some .command
  | _ => none

def parsePol : Str → Option Policy
  | ['a'] => some .anywhere
  | ['g'] => some .onlyGlobal
  | ['c'] => some .onlyCurrentLocal
  | ['l'] => some .onlyLocal
  | _ => none

def parseUpd : Str → Option Updater
  | ['n'] => some .nop
  | ['e'] => some .exp
  | ['u'] => some .unexport
  | _ => none

def parseItem (s : Str) : Option (Option Str × Str) :=
  match splitC '=' s with
  | [k, v] =>
    match k with
    | ['-'] => some (none, unesc v)
    | 'k' :: ks => some (some (unesc ks), unesc v)
    | _ => none
  | _ => none

def parseLit : Str → Option Lit
  | 's' :: r => some (.scalar (unesc r))
  | ['A'] => some (.array [])
  | 'A' :: r => ((splitC ',' r).mapM parseItem).map .array
  | _ => none

def parseOptLit : Str → Option (Option Lit)
  | ['-'] => some none
  | s => (parseLit s).map some

def parseKV (s : Str) : Option (Str × Str) :=
  match splitC '=' s with
  | [k, v] => some (unesc k, unesc v)
  | _ => none

def parseValue : Str → Option Value
  | ['U'] => some (.unset .untyped)
  | ['U', 'a'] => some (.unset .indexed)
  | ['U', 'A'] => some (.unset .assoc)
  | 's' :: r => some (.str (unesc r))
  | ['I'] => some (.indexed [])
  | ['M'] => some (.assoc [])
  | 'I' :: r => ((splitC ';' r).mapM parseKV).map fun kvs =>
      .indexed (kvs.foldl (fun m (k, v) => insNat ((parseNat? k).getD 0) v m) [])
  | 'M' :: r => ((splitC ';' r).mapM parseKV).map fun kvs =>
      .assoc (kvs.foldl (fun m (k, v) => insStr k v m) [])
  | _ => none

def parseVar (s : Str) : Option Var :=
  match splitC '~' s with
  | [ats, v] =>
    (parseValue v).map fun val =>
      { value := val, exported := ats.contains 'x', readonly := ats.contains 'r', integer := ats.contains 'i',
        transform := if ats.contains 'l' then .lower else if ats.contains 'u' then .upper
                     else if ats.contains 'c' then .cap else .none }
  | _ => none

def optFlag (fl : Str) (c : Char) : Option Bool :=
  let rec go : Str → Option Bool
    | a :: b :: r => if a = c ∧ b = '-' then some true else if a = c ∧ b = '+' then some false else go (b :: r)
    | _ => none
  go fl

/-- flags: `a`, `A`, `g` alone; `i l u c x r` followed by `-` (set) or `+` (clear) -/
def parseFlags (fl : Str) : DeclFlags :=
  let rec plain : Str → Char → Bool
    | [], _ => false
    | [a], c => a = c
    | a :: b :: r, c => if a = c ∧ b ≠ '-' ∧ b ≠ '+' then true
                        else if b = '-' ∨ b = '+' then plain r c else plain (b :: r) c
  { a := plain fl 'a', A := plain fl 'A', g := plain fl 'g',
    i := optFlag fl 'i', l := optFlag fl 'l', u := optFlag fl 'u', c := optFlag fl 'c',
    x := optFlag fl 'x', r := optFlag fl 'r' }

def parseVerb : Str → Option Verb
  | ['d'] => some .declare
  | ['l'] => some .loc
  | ['r'] => some .readonly
  | _ => none

def parseIdx : Str → Option (Option Str)
  | ['-'] => some none
  | 'i' :: r => some (some (unesc r))
  | _ => none

def parseReq : Str → Option (Option Kind)
  | ['-'] => some none
  | s => (parseKind s).map some

inductive Tok | op (o : Op) | dump | unsetSub (n i : Str)

def parseTok (t : Str) : Option Tok :=
  match splitC ':' t with
  | [['D']] => some .dump
  | [['p', 'u'], k] => (parseKind k).map (.op ∘ .push)
  | [['p', 'o'], k] => (parseKind k).map (.op ∘ .pop)
  | [['u', 'n'], n] => some (.op (.unset (unesc n)))
  | [['u', 'i'], n, i] => some (.op (.unsetIndex (unesc n) (unesc i)))
  | [['u', 'j'], n, i] => some (.unsetSub (unesc n) (unesc i))
  | [['u', 'a'], n, l, u, p, k] => do
      let l ← parseLit l; let u ← parseUpd u; let p ← parsePol p; let k ← parseKind k
      pure (.op (.updateOrAdd (unesc n) l u p k))
  | [['u', 'e'], n, i, v, p, k] => do
      let p ← parsePol p; let k ← parseKind k
      pure (.op (.updateOrAddElem (unesc n) (unesc i) (unesc v) p k))
  | [['a', 'd'], n, v, k] => do
      let v ← parseVar v; let k ← parseKind k
      pure (.op (.add (unesc n) v k))
  | [['a', 's'], n, i, l, fl] => do
      let i ← parseIdx i; let l ← parseLit l
      pure (.op (.assign (unesc n) i l (fl.contains 'a')))
  | [['p', 't'], items] =>
      ((splitC '&' items).mapM fun it => match splitC '~' it with
        | [n, l] => (parseLit l).map fun l => (unesc n, l)
        | _ => none).map (.op ∘ .pushTemp)
  | [['d', 'e'], n, fl, vb, l, bits] => do
      let vb ← parseVerb vb; let l ← parseOptLit l
      pure (.op (.declare (unesc n) (parseFlags fl) vb l (bits.contains 'p') (bits.contains 'n') (bits.contains 'f')))
  | [['e', 'n'], n, u] => some (.op (.exportName (unesc n) (u = ['u'])))
  | [['e', 'a'], n, l, fl] => do
      let l ← parseLit l
      pure (.op (.exportAssign (unesc n) l (fl.contains 'a') (fl.contains 'u')))
  | [['d', 'f'], n, v] => some (.op (.assignDefault (unesc n) (unesc v)))
  | _ => none

/-! rendering -/

def showAttrs (v : Var) : Str :=
  let s := (if v.exported then ['x'] else []) ++ (if v.readonly then ['r'] else []) ++
    (if v.integer then ['i'] else []) ++
    (match v.transform with | .none => [] | .lower => ['l'] | .upper => ['u'] | .cap => ['c'])
  if s.isEmpty then ['-'] else s

def showValue : Value → Str
  | .unset .untyped => ['U']
  | .unset .indexed => ['U', 'a']
  | .unset .assoc => ['U', 'A']
  | .str s => 's' :: esc s
  | .indexed m => 'I' :: joinWith [';'] (m.map fun (k, v) => natToStr k ++ ['='] ++ esc v)
  | .assoc m => 'M' :: joinWith [';'] (m.map fun (k, v) => esc k ++ ['='] ++ esc v)

def showVar (v : Var) : Str := showAttrs v ++ ['~'] ++ showValue v.value

def insSorted (e : Str × Str) : List (Str × Str) → List (Str × Str)
  | [] => [e]
  | e' :: r => if strLt e.1 e'.1 then e :: e' :: r else e' :: insSorted e r

def sortByName (l : List (Str × Str)) : List (Str × Str) := l.foldr insSorted []

def showEntries (l : List (Str × Str)) : Str :=
  joinWith [','] ((sortByName l).map fun (n, s) => n ++ ['='] ++ s)

def showKind : Kind → Char
  | .global => 'G'
  | .loc => 'L'
  | .command => 'C'

def showScope (s : Scope) : Str :=
  [showKind s.1, '['] ++ showEntries (s.2.map fun (n, v) => (n, showVar v)) ++ [']']

def names (e : Env) : List Str :=
  (e.scopes.flatMap fun s => s.2.map (·.1)).eraseDups

def showView (e : Env) : Str :=
  "V[".toList ++ showEntries ((names e).filterMap fun n =>
    match e.get n with | some (_, v) => some (n, showVar v) | none => none) ++ [']']

def showChild (e : Env) : Str :=
  "X[".toList ++ showEntries (e.childEnv.map fun (n, v) => (n, esc v)) ++ [']']

def dump (ok : Bool) (e : Env) : Str :=
  "S=".toList ++ [if ok then '1' else '0'] ++ [' '] ++
    joinWith ['/'] (e.scopes.reverse.map showScope) ++ [' '] ++ showView e ++ [' '] ++ showChild e

def runToks : Env → Bool → List Tok → List Str
  | _, _, [] => []
  | e, ok, .dump :: r => dump ok e :: runToks e ok r
  | e, _, .op o :: r => let (e', ok') := stepR e o; runToks e' ok' r
  | e, _, .unsetSub n i :: r =>
    -- the `unset` builtin (unset.rs `unset_array_index`) evaluates the subscript arithmetically unless the
    -- variable is an associative array; the subscripts used are literals or names of unset variables
    let assoc := match e.get n with | some (_, v) => v.value.isAssoc | none => false
    let i' := if assoc then i else intToStr (parseI64 i)
    let (e', ok') := stepR e (.unsetIndex n i'); runToks e' ok' r

def handle (toks : List Str) : Str :=
  match toks.mapM parseTok with
  | none => "bad-op".toList
  | some ts => joinWith " | ".toList (runToks Env.init true ts)

end BrushVerif.Drv.C09
